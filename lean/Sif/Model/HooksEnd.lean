import Sif.Model.Hooks
/-
  x/clp/abci.go `EndBlocker` — provider distribution (LPPD, keeper/provider_distribution.go) and
  depth rewards (keeper/rewards.go), copied operation by operation; panics are `Except.error`.

  Bank calls (mint, module→account sends, burn) are NOT modelled: inside the envelope
  (supply < 2^200) they return errors, never panic, and every send is assumed to succeed (the
  module account holds the pools' funds).  This is recorded in the trusted base and exercised by
  the correspondence.
-/
namespace Sif.Hooks
open Sif

structure LppdPeriod where
  rate : Dec        -- DistributionPeriodBlockRate
  start : Nat       -- uint64
  end_ : Nat
  mod : Nat
  deriving Repr, DecidableEq, Inhabited

structure Mult where
  asset : String
  m : Option Dec    -- *sdk.Dec (nil allowed by the type)
  deriving Repr, DecidableEq, Inhabited

structure RewardPeriod where
  start : Nat
  end_ : Nat
  alloc : Option Nat        -- *sdk.Uint
  mod : Nat
  distribute : Bool
  defMult : Option Dec      -- *sdk.Dec
  mults : List Mult
  deriving Repr, DecidableEq, Inhabited

structure EPool where
  sym : String
  nb : Nat          -- NativeAssetBalance
  units : Nat       -- PoolUnits
  rpnd : Nat        -- RewardPeriodNativeDistributed
  lps : List Nat    -- LiquidityProviderUnits of the pool's providers, store order
  deriving Repr, DecidableEq, Inhabited

structure EState where
  accu : Nat
  lppd : List LppdPeriod
  rew : List RewardPeriod
  pools : List EPool
  deriving Repr, DecidableEq, Inhabited

/-- `NewDecFromBigInt(u.BigInt())` (never checks) -/
def decOfUint (n : Nat) : Dec := ⟨(n : Int) * Dec.P⟩

/-- Go `a % b` on int64: run-time panic on zero; sign follows the dividend -/
def modI64 (a b : Int) : M Int := if b = 0 then .error .divZero else .ok (Int.tmod a b)

/-- `IsDistributionBlockPure(blockHeight int64, startHeight, mod uint64)` -/
def isDistBlock (h : Int) (start mod : Nat) : M Bool :=
  (modI64 (wrapI64 (h - wrapI64 start)) (wrapI64 mod)).map (fun r => decide (r = 0))

/-! ### LPPD -/

/-- `isActivePeriod(current int64, start, end uint64)` -/
def lppdActive (h : Int) (p : LppdPeriod) : Bool :=
  decide (h ≥ wrapI64 p.start) && decide (h ≤ wrapI64 p.end_)

def findLppd (h : Int) : List LppdPeriod → Option LppdPeriod
  | [] => none
  | p :: ps => if lppdActive h p then some p else findLppd h ps

/-- `sdk.NewUintFromBigInt(x.RoundInt().BigInt())` -/
def roundToUint (d : Dec) : M Nat := Uint.ofInt d.roundInt

/-- `CalcProviderDistributionAmount`; the final `sdk.Uint(sdk.Int)` conversion does not check, a
    negative value would be a corrupt Uint — modelled as a panic (`Uint.ofInt`), cannot occur for
    non-negative inputs -/
def provAmount (rowanPd : Dec) (poolUnits lpUnits : Nat) : M Nat := do
  let pct ← Dec.quo (decOfUint lpUnits) (decOfUint poolUnits)
  let pr ← Dec.mul pct rowanPd
  roundToUint pr

/-- the clamp of the running total (provider_distribution.go:258–262) -/
def clampStep (cap total pr : Nat) : M (Nat × Nat) := do
  let t ← Uint.add total pr
  if t > cap then do
    let before ← Uint.sub t pr
    let pr' ← Uint.sub cap before
    pure (cap, pr')
  else pure (t, pr)

/-- the provider loop of `CollectProviderDistribution` → (total, per-provider amounts) -/
def provLoop (rowanPd : Dec) (cap poolUnits : Nat) : List Nat → Nat → M (Nat × List Nat)
  | [], total => .ok (total, [])
  | u :: us, total => do
    let pr ← provAmount rowanPd poolUnits u
    let c ← clampStep cap total pr
    let rest ← provLoop rowanPd cap poolUnits us c.1
    pure (rest.1, c.2 :: rest.2)

/-- `CollectProviderDistribution` → total rowan to distribute for the pool -/
def collectPD (depth rate : Dec) (poolUnits : Nat) (lps : List Nat) : M (Nat × List Nat) := do
  let rowanPd ← Dec.mul rate depth
  let cap ← roundToUint rowanPd
  provLoop rowanPd cap poolUnits lps 0

/-- LPPD on one pool: pools without providers are skipped; `RemoveRowanFromPool` refuses (no
    panic) when the pool holds less than the amount -/
def lppdPool (rate : Dec) (p : EPool) : M EPool :=
  if p.lps.isEmpty then .ok p else
    (collectPD (decOfUint p.nb) rate p.units p.lps).map
      (fun r => if p.nb < r.1 then p else { p with nb := p.nb - r.1 })

def lppdPools (rate : Dec) : List EPool → M (List EPool)
  | [] => .ok []
  | p :: ps => do
    let p' ← lppdPool rate p
    let rest ← lppdPools rate ps
    pure (p' :: rest)

/-- `IsDistributionBlock` + `ProviderDistributionPolicyRun` -/
def lppdRun (h : Int) (periods : List LppdPeriod) (pools : List EPool) : M (List EPool) :=
  match findLppd h periods with
  | none => .ok pools
  | some p => do
    let due ← isDistBlock h p.start p.mod
    if due then lppdPools p.rate pools else pure pools

/-! ### depth rewards -/

/-- `GetCurrentRewardPeriod` (height compared as uint64; mod 0 becomes 1) -/
def findReward (h : Int) : List RewardPeriod → Option RewardPeriod
  | [] => none
  | p :: ps =>
    if wrapU64 h ≥ p.start ∧ wrapU64 h ≤ p.end_ then
      some (if p.mod = 0 then { p with mod := 1 } else p)
    else findReward h ps

/-- `GetPoolMultiplier`: first entry for the asset with a non-nil multiplier, else the default
    (nil default = nil dereference) -/
def poolMult (asset : String) (p : RewardPeriod) : M Dec :=
  match p.mults.find? (fun m => m.asset = asset ∧ m.m.isSome) with
  | some ⟨_, some d⟩ => .ok d
  | _ => match p.defMult with
    | some d => .ok d
    | none => .error .other

/-- `CalcBlockDistribution`: allocation / (end − start + 1), uint64 arithmetic -/
def blockDistribution (p : RewardPeriod) (alloc : Nat) : M Nat :=
  Uint.quo alloc (wrapU64 ((wrapU64 ((p.end_ : Int) - p.start) : Int) + 1))

/-- `calcTotalDepth` (the reset of `RewardPeriodNativeDistributed` is done by the caller) -/
def totalDepth (p : RewardPeriod) : List EPool → Dec → M Dec
  | [], acc => .ok acc
  | q :: qs, acc => do
    let m ← poolMult q.sym p
    let d ← Dec.mul (decOfUint q.nb) m
    let acc' ← Dec.add acc d
    totalDepth p qs acc'

/-- `calcPoolDistribution` -/
def poolDistribution (m : Dec) (nb : Nat) (total : Dec) (blockDist : Nat) : M Nat := do
  let w0 ← Dec.mul (decOfUint nb) m
  let w ← Dec.quo w0 total
  let pd ← Dec.mul w (decOfUint blockDist)
  Uint.ofInt pd.truncateInt

/-- `CollectPoolRewardTuples` → per pool the reward (0 = no tuple), in order -/
def rewardTuples (p : RewardPeriod) (total : Dec) (blockDist : Nat) : List EPool → Nat → M (List Nat)
  | [], _ => .ok []
  | q :: qs, remaining =>
    if remaining = 0 then .ok (List.replicate (qs.length + 1) 0) else do
      let m ← poolMult q.sym p
      let pd ← poolDistribution m q.nb total blockDist
      let pd' := if pd > remaining then remaining else pd
      let rem' ← Uint.sub remaining pd'
      let rest ← rewardTuples p total blockDist qs rem'
      pure (pd' :: rest)

/-- one tuple applied to its pool -/
def applyReward (distribute : Bool) (q : EPool) (reward : Nat) : M EPool :=
  if reward = 0 then .ok q
  else if distribute then
    if q.lps.isEmpty then do
      let nb ← Uint.add q.nb reward
      let r ← Uint.add q.rpnd reward
      pure { q with nb := nb, rpnd := r }
    else do
      let c ← collectPD (decOfUint reward) Dec.one q.units q.lps
      let r ← Uint.add q.rpnd c.1
      pure { q with rpnd := r }
  else do
    let nb ← Uint.add q.nb reward
    let r ← Uint.add q.rpnd reward
    pure { q with nb := nb, rpnd := r }

def applyRewards (distribute : Bool) : List EPool → List Nat → M (List EPool)
  | q :: qs, r :: rs => do
    let q' ← applyReward distribute q r
    let rest ← applyRewards distribute qs rs
    pure (q' :: rest)
  | qs, _ => .ok qs

def resetIfStart (h : Int) (p : RewardPeriod) (pools : List EPool) : List EPool :=
  if wrapU64 h = p.start then pools.map (fun q => { q with rpnd := 0 }) else pools

/-- `DistributeDepthRewards` -/
def distributeDepth (h : Int) (p : RewardPeriod) (blockDist : Nat) (pools : List EPool) : M (List EPool) :=
  if blockDist = 0 then .ok pools else do
    let total ← totalDepth p pools Dec.zero
    let pools1 := resetIfStart h p pools
    if total.i ≤ 0 then pure pools1 else do
      let tuples ← rewardTuples p total blockDist pools1 blockDist
      applyRewards p.distribute pools1 tuples

/-- rewards.go `RewardPeriodAt`: the first period of the list covering the height (no `mod` fix-up) -/
def rewardAt (height : Nat) : List RewardPeriod → Option RewardPeriod
  | [] => none
  | p :: ps => if height ≥ p.start ∧ height ≤ p.end_ then some p else rewardAt height ps

def modNorm (p : RewardPeriod) : Nat := if p.mod = 0 then 1 else p.mod

/-- rewards.go `SameRewardPeriod` on two non-nil periods -/
def samePeriod (a b : RewardPeriod) : Bool :=
  (a.alloc.isNone == b.alloc.isNone) && decide (a.start = b.start) && decide (a.end_ = b.end_) &&
  decide (modNorm a = modNorm b) && (a.alloc.isNone || decide (a.alloc = b.alloc))

/-- … on possibly nil periods: two nils are the same -/
def samePeriodOpt : Option RewardPeriod → Option RewardPeriod → Bool
  | none, none => true
  | some a, some b => samePeriod a b
  | _, _ => false

/-- `uint64(ctx.BlockHeight() - 1)` -/
def prevHeight (h : Int) : Nat := wrapU64 (wrapI64 (h - 1))

/-- repairs F10 / F27 (abci.go): the accumulated entitlement is kept only if the current period was
    also the current one in the previous block -/
def accuKept (h : Int) (periods : List RewardPeriod) (p : RewardPeriod) (accu : Nat) : Nat :=
  match rewardAt (prevHeight h) periods with
  | none => 0
  | some q => if samePeriod q p then accu else 0

def rewardsWith (h : Int) (p : RewardPeriod) (alloc accu : Nat) (pools : List EPool) : M (Nat × List EPool) := do
  let due ← isDistBlock h p.start p.mod
  let cur ← blockDistribution p alloc
  let bd ← Uint.add accu cur
  if due then do
    let pools' ← distributeDepth h p bd pools
    pure (0, pools')
  else pure (bd, pools)

/-- the rewards half of `EndBlocker` -/
def rewardsRun (h : Int) (s : EState) (pools : List EPool) : M (Nat × List EPool) :=
  match findReward h s.rew with
  | none => .ok (s.accu, pools)
  | some p =>
    match p.alloc with
    | none => .error .other                      -- nil *sdk.Uint dereference
    | some a => if a = 0 then .ok (s.accu, pools) else rewardsWith h p a (accuKept h s.rew p s.accu) pools

/-- x/clp/abci.go `EndBlocker` -/
def endBlock (s : EState) (h : Int) : M EState := do
  let pools1 ← lppdRun h s.lppd s.pools
  let r ← rewardsRun h s pools1
  pure { s with accu := r.1, pools := r.2 }

end Sif.Hooks
