import Sif.Num.Basic
/-
  C15 — the unlock bookkeeping of the clp module, copied operation by operation from
    x/clp/keeper/rewards.go     UseUnlockedLiquidity, PruneUnlockRecords
    x/clp/keeper/msg_server.go  UnlockLiquidity, CancelUnlockLiquidity, RemoveLiquidity,
                                RemoveLiquidityUnits, UpdateRewardsParams
    x/clp/keeper/executors.go   AddLiquidity / RemoveLiquidity (what they store in the LP record)
    x/clp/keeper/calculations.go the `lpUnitsLeft` part of CalculateWithdrawal{,FromUnits},
                                ConvWBasisPointsToUnits
  Only the unit / unlock-record bookkeeping is modelled; the payout arithmetic of a removal (pool
  depths, coins sent) is outside this model — the correspondence harness keeps pools deep enough
  that it never fails, and reports any other failure as a class the model never produces.

  Oddities kept:
  * heights are `int64`, the periods `uint64`: `record.RequestHeight + int64(lockPeriod)` wraps
    (`wrap64`), so a huge lock period makes requests mature at once;
  * `UseUnlockedLiquidity` receives the provider record BY VALUE but the records inside are
    pointers: the consumption loop mutates the caller's records, the zero-record filter only
    reaches the copy that is stored.  `useUnlocked` therefore returns two lists: what the caller
    still holds (consumed, zero records still there) and what was written to the store;
  * `RemoveLiquidity*` later overwrite the stored record with the caller's list, so zero-unit
    records linger in the store until the next `PruneUnlockRecords`;
  * with lock period 0 a removal (or cancel) whose units exceed the matured requests is NOT an
    error: it consumes what is there and goes on.
  Core Lean only (linked into `drv_unlock`).
-/
namespace Sif.Unlock
open Sif

/-- refusal classes of the five messages (what the harness compares) -/
inductive Err where
  | nolp | bal | units | asym | validate | panic | queued | health
  deriving DecidableEq, Repr, Inhabited

/-- result of a delivered message -/
inductive Res where
  | ok | err (e : Err)
  deriving DecidableEq, Repr, Inhabited

def Res.isOk : Res → Bool
  | .ok => true
  | .err _ => false

def Err.toString : Err → String
  | .nolp => "err.nolp" | .bal => "err.bal" | .units => "err.units"
  | .asym => "err.asym" | .validate => "err.validate" | .panic => "panic"
  | .queued => "err.queued" | .health => "err.health"
def Res.toString : Res → String
  | .ok => "ok" | .err e => e.toString

/-- `types.LiquidityUnlock{RequestHeight int64, Units sdk.Uint}` -/
structure Rec where
  height : Int
  units : Nat
  deriving DecidableEq, Repr, Inhabited

/-- the part of `types.LiquidityProvider` this property is about -/
structure LP where
  units : Nat
  unlocks : List Rec
  deriving DecidableEq, Repr, Inhabited

def unitsOf : Option LP → Nat
  | none => 0
  | some lp => lp.units
def unlocksOf : Option LP → List Rec
  | none => []
  | some lp => lp.unlocks

/-! ### int64 arithmetic -/
def two63 : Int := 9223372036854775808
def two64 : Int := 18446744073709551616
/-- two's-complement wrap of a mathematical integer into `int64` -/
def wrap64 (i : Int) : Int := (i + two63) % two64 - two63
/-- Go `int64(x)` for `x uint64` -/
def toI64 (u : Nat) : Int := wrap64 (u : Int)
/-- Go `a + b` on `int64` -/
def add64 (a b : Int) : Int := wrap64 (a + b)

/-- `record.RequestHeight+int64(lockPeriod) <= currentHeight` -/
def maturedGo (L : Nat) (h : Int) (r : Rec) : Bool :=
  decide (add64 r.height (toI64 L) ≤ h)

/-- `currentHeight >= record.RequestHeight+int64(lockPeriod)+int64(cancelPeriod)` -/
def expiredGo (L C : Nat) (h : Int) (r : Rec) : Bool :=
  decide (add64 (add64 r.height (toI64 L)) (toI64 C) ≤ h)

/-- Σ units of a record list -/
def total : List Rec → Nat
  | [] => 0
  | r :: rs => r.units + total rs

/-- the `totalUnlocks = totalUnlocks.Add(unlock.Units)` loop of `UnlockLiquidity` (256-bit check
    at every step) -/
def totalM : List Rec → Nat → M Nat
  | [], acc => .ok acc
  | r :: rs, acc => Uint.add acc r.units >>= totalM rs

/-- `PruneUnlockRecords`: drop auto-cancelled (expired) records and zero records.  (The `write`
    flag only decides whether the same list is stored again; a refused message discards it.) -/
def keepRec (L C : Nat) (h : Int) (r : Rec) : Bool := !(expiredGo L C h r) && decide (r.units ≠ 0)
def prune (L C : Nat) (h : Int) (rs : List Rec) : List Rec := rs.filter (keepRec L C h)

/-- the consumption loop of `UseUnlockedLiquidity`; returns the records as the CALLER sees them
    afterwards (pointer aliasing) and `unitsLeftToUse` -/
def consume (any : Bool) (L : Nat) (h : Int) : List Rec → Nat → List Rec × Nat
  | [], left => ([], left)
  | r :: rs, left =>
    if any || maturedGo L h r then
      if left > r.units then
        let p := consume any L h rs (left - r.units)
        ({ r with units := 0 } :: p.1, p.2)
      else
        ({ r with units := r.units - left } :: rs, 0)
    else
      let p := consume any L h rs left
      (r :: p.1, p.2)

def nonzero (r : Rec) : Bool := decide (r.units ≠ 0)

/-- `UseUnlockedLiquidity(ctx, lp, units, any)`: `.ok (callerView, stored)` -/
def useUnlocked (L : Nat) (h : Int) (rs : List Rec) (u : Nat) (any : Bool) : Except Err (List Rec × List Rec) :=
  let p := consume any L h rs u
  if L ≠ 0 ∧ p.2 ≠ 0 then .error .bal else .ok (p.1, p.1.filter nonzero)

def liftP {α} : M α → Except Err α
  | .ok a => .ok a
  | .error _ => .error .panic

/-! ### UnlockLiquidity -/
def unlockCheck (rs : List Rec) (u units : Nat) : Except Err Unit :=
  match liftP (totalM rs 0 >>= fun t => Uint.add t u) with
  | .error e => .error e
  | .ok t => if t > units then .error .bal else .ok ()

def unlockLP (L C : Nat) (h : Int) (lp : LP) (u : Nat) : Except Err (Option LP) :=
  let rs := prune L C h lp.unlocks
  match unlockCheck rs u lp.units with
  | .error e => .error e
  | .ok _ => .ok (some { lp with unlocks := rs ++ [⟨h, u⟩] })

def unlockH (L C : Nat) (h : Int) (s : Option LP) (u : Nat) : Except Err (Option LP) :=
  match s with
  | none => .error .nolp
  | some lp => unlockLP L C h lp u

/-! ### CancelUnlockLiquidity -/
def cancelLP (L C : Nat) (h : Int) (lp : LP) (u : Nat) : Except Err (Option LP) :=
  match useUnlocked L h (prune L C h lp.unlocks) u true with
  | .error e => .error e
  | .ok (_, stored) => .ok (some { lp with unlocks := stored })

def cancelH (L C : Nat) (h : Int) (s : Option LP) (u : Nat) : Except Err (Option LP) :=
  match s with
  | none => .error .nolp
  | some lp => cancelLP L C h lp u

/-! ### the two removals -/

/-- everything after `lpUnitsLeft` is known: `UseUnlockedLiquidity(lp, units − left, false)`, then
    `Keeper.RemoveLiquidity` stores the CALLER's record list with the new units, or destroys the
    provider when nothing is left.  `rs` is the caller's list after `PruneUnlockRecords`. -/
def removeCore (L : Nat) (h : Int) (units : Nat) (rs : List Rec) (left : Nat) : Except Err (Option LP) :=
  match liftP (Uint.sub units left) with
  | .error e => .error e
  | .ok burned =>
    match useUnlocked L h rs burned false with
    | .error e => .error e
    | .ok (caller, _) => .ok (if left = 0 then none else some ⟨left, caller⟩)

/-- `NewDecFromStr` of a decimal integer string: fails beyond 315 bits (the callers panic) -/
def decOfNat (n : Nat) : M Dec := Dec.chk ((n * Dec.P : Nat) : Int)

/-- `lpUnitsLeft` of `CalculateWithdrawalFromUnits`: `lpUnitsF.Sub(withdrawUnitsF).RoundInt()` -/
def leftFromUnits (units w : Nat) : M Nat := do
  let uF ← decOfNat units
  let wF ← decOfNat w
  let d ← Dec.sub uF wF
  Uint.ofInt d.roundInt

/-- `lpUnitsLeft` of `CalculateWithdrawal`:
    `lpUnitsF.Sub(lpUnitsF.Quo(NewDec(10000).Quo(wBasisPointsF))).TruncateInt()` -/
def leftFromWBasis (units wbasis : Nat) : M Nat := do
  let uF ← decOfNat units
  let wF ← decOfNat wbasis
  let den ← Dec.quo (Dec.ofNat 10000) wF
  let claim ← Dec.quo uF den
  let d ← Dec.sub uF claim
  Uint.ofInt d.truncateInt

/-- `ConvWBasisPointsToUnits`: `total.Quo(NewUint(10000).Quo(wbasis))` -/
def convWBasis (tot wbasis : Nat) : M Nat := do
  let q ← Uint.quo 10000 wbasis
  Uint.quo tot q

def removeUnitsLP (L C : Nat) (h : Int) (lp : LP) (w : Nat) : Except Err (Option LP) :=
  if w > lp.units then .error .units else
  match liftP (leftFromUnits lp.units w) with
  | .error e => .error e
  | .ok left => removeCore L h lp.units (prune L C h lp.unlocks) left

/-- `MsgRemoveLiquidityUnits` (ValidateBasic, then the handler; registry/pool guards assumed passed,
    removal queue disabled) -/
def removeUnitsH (L C : Nat) (h : Int) (s : Option LP) (w : Nat) : Except Err (Option LP) :=
  if w = 0 then .error .validate else
  match s with
  | none => .error .nolp
  | some lp => removeUnitsLP L C h lp w

def removeLP2 (L C : Nat) (h : Int) (lp : LP) (wbasis : Nat) : Except Err (Option LP) :=
  match liftP (convWBasis lp.units wbasis) with
  | .error e => .error e
  | .ok mu =>
    if mu > lp.units then .error .units else
    match liftP (leftFromWBasis lp.units wbasis) with
    | .error e => .error e
    | .ok left => removeCore L h lp.units (prune L C h lp.unlocks) left

def removeLP (L C : Nat) (h : Int) (lp : LP) (wbasis : Nat) (asym : Int) : Except Err (Option LP) :=
  if asym ≠ 0 then .error .asym else removeLP2 L C h lp wbasis

/-- `MsgRemoveLiquidity` (ValidateBasic: 1 ≤ wbasis ≤ 10000, |asymmetry| ≤ 10000) -/
def removeH (L C : Nat) (h : Int) (s : Option LP) (wbasis : Int) (asym : Int) : Except Err (Option LP) :=
  if wbasis ≤ 0 ∨ wbasis > 10000 ∨ asym > 10000 ∨ asym < -10000 then .error .validate else
  match s with
  | none => .error .nolp
  | some lp => removeLP L C h lp wbasis.toNat asym

/-! ### the margin-health stage of the two removals.  After `UseUnlockedLiquidity` has accepted, on a
    margin-enabled pool the handler computes the pool health the removal would leave
    (`CalculatePoolHealth(&futurePool)`, outside this model: an environment value computed with the
    implementation's own functions): below `RemovalQueueThreshold` the removal is QUEUED if the
    removal queue is enabled — `QueueRemoval` writes a queue entry and the handler returns
    `types.ErrQueued`, an ERROR, so baseapp discards the entry together with the consumed unlock
    records (observation O5: the queue is never persisted) — else refused (`ErrRemovalsBlockedByHealth`).
    `panic`: the `futurePool` subtraction underflowed.
    `calcPanic`: the payout calculation itself (`CalculateWithdrawal{,FromUnits}`, which runs BEFORE
    `UseUnlockedLiquidity`) panicked — e.g. a provider record with 0 units (an add that minted 0
    units leaves one) removing by basis points: `poolUnitsF.Quo(unitsToClaim)` divides by zero.  Only
    the refusals of the stages before the calculation (validation, no provider, asymmetry, units)
    come first; everything else is the panic. -/
inductive Health where
  | pass | queue | block | panic | calcPanic
  deriving DecidableEq, Repr, Inhabited

def gateAfter (hc : Health) (o : Option LP) : Except Err (Option LP) :=
  match hc with
  | .pass => .ok o
  | .queue => .error .queued
  | .block => .error .health
  | .panic => .error .panic
  | .calcPanic => .error .panic

def beforeCalc : Err → Bool
  | .validate | .nolp | .asym | .units => true
  | _ => false

def gate (hc : Health) (r : Except Err (Option LP)) : Except Err (Option LP) :=
  match r with
  | .error e => if hc = .calcPanic && !(beforeCalc e) then .error .panic else .error e
  | .ok o => gateAfter hc o

/-! ### AddLiquidity (what it does to the provider record): units grow by the minted amount (an
    environment value: computed by `CalculatePoolUnits`, outside this model); the unlock list is
    NOT pruned and not changed; a missing provider is created with an empty list. -/
def addH (s : Option LP) (minted : Nat) : Except Err (Option LP) :=
  match s with
  | none => .ok (some ⟨minted, []⟩)
  | some lp =>
    match liftP (Uint.add lp.units minted) with
    | .error e => .error e
    | .ok u => .ok (some { lp with units := u })

/-! ### state, messages, histories -/
inductive Op where
  | unlock (key : String) (u : Nat)
  | cancel (key : String) (u : Nat)
  | removeUnits (key : String) (w : Nat) (hc : Health)
  | remove (key : String) (wbasis asym : Int) (hc : Health)
  | add (key : String) (minted : Nat)
  | setParams (L C : Nat)
  deriving Repr

/-- `key` = pool symbol + provider address (the store key of the LP record) -/
structure St where
  L : Nat
  C : Nat
  lps : String → Option LP

def St.set (s : St) (k : String) (v : Option LP) : St :=
  { s with lps := fun k' => if k' = k then v else s.lps k' }

/-- the transaction wrapper: a refused (or panicking) message changes nothing -/
def commit (s : St) (k : String) : Except Err (Option LP) → St × Res
  | .ok v => (s.set k v, .ok)
  | .error e => (s, .err e)

/-- one delivered message at height `h` -/
def step (s : St) (h : Int) : Op → St × Res
  | .unlock k u => commit s k (unlockH s.L s.C h (s.lps k) u)
  | .cancel k u => commit s k (cancelH s.L s.C h (s.lps k) u)
  | .removeUnits k w hc => commit s k (gate hc (removeUnitsH s.L s.C h (s.lps k) w))
  | .remove k wb a hc => commit s k (gate hc (removeH s.L s.C h (s.lps k) wb a))
  | .add k m => commit s k (addH (s.lps k) m)
  | .setParams L C => ({ s with L := L, C := C }, .ok)

/-- the chain before any provider exists -/
def St.init (L C : Nat) : St := ⟨L, C, fun _ => none⟩

def run (s : St) : List (Int × Op) → St
  | [] => s
  | (h, op) :: ops => run (step s h op).1 ops

end Sif.Unlock
