/-
  C14 — genesis export/import.  Core Lean only.
  Part 1: record type of the regenerated field-coverage facts (tie 1, `Sif/Generated/Genesis.lean`).
-/
namespace Sif.Gen

/-- one field of a module's `GenesisState`, with how `InitGenesis` consumes it and how
    `ExportGenesis` produces it (callee names; see extract/replay/genesis.go) -/
structure GenField where
  module : String
  field : String
  ty : String
  /-- number of references to the field inside functions named `InitGenesis` -/
  initRefs : Nat
  /-- calls (other than builtins) that receive a value derived from the field in `InitGenesis` -/
  initCalls : List String
  /-- number of times the field is given a value in a `GenesisState{…}` literal of `ExportGenesis` -/
  exportRefs : Nat
  /-- calls the exported value is derived from -/
  exportFrom : List String
  deriving DecidableEq, Repr

end Sif.Gen

/-!
  Part 2: a thin model of "collection under prefix" modules (DESIGN 4/C14).

  The store of a module is a key-sorted association list over byte strings (IAVL iteration order =
  lexicographic byte order).  A collection has a prefix, a key function (record ↦ full store key),
  and an encoding with its decoder.  `exportC` iterates the prefix in key order and decodes;
  `initC` folds `set` under the key function — as the eight genesis files do.
-/
namespace Sif.Gen

abbrev Key := List Nat
abbrev Val := List Nat

/-- lexicographic (byte) order of store keys -/
def klt : Key → Key → Bool
  | [], [] => false
  | [], _ :: _ => true
  | _ :: _, [] => false
  | a :: as, b :: bs => if a < b then true else if a = b then klt as bs else false

abbrev Store := List (Key × Val)

/-- `store.Set`: replace the value of an existing key, else insert at the key's place in byte order -/
def Store.set : Store → Key → Val → Store
  | [], k, v => [(k, v)]
  | (k', v') :: r, k, v =>
    if k = k' then (k, v) :: r
    else if klt k k' then (k, v) :: (k', v') :: r
    else (k', v') :: Store.set r k v

def isPrefix (p k : Key) : Bool := p.isPrefixOf k

/-- the part of the store under a prefix (what `KVStorePrefixIterator` walks, in order) -/
def under (p : Key) (s : Store) : Store := s.filter (fun e => isPrefix p e.1)

/-- strictly increasing keys (a well-formed IAVL store) -/
def Sorted (s : Store) : Prop := s.Pairwise (fun a b => klt a.1 b.1 = true)

instance (s : Store) : Decidable (Sorted s) := by unfold Sorted; infer_instance

structure Coll (α : Type) where
  pfx : Key
  /-- full store key of a record -/
  key : α → Key
  enc : α → Val
  dec : Val → Option α

def Coll.entry {α : Type} (c : Coll α) (a : α) : Key × Val := (c.key a, c.enc a)

/-- `ExportGenesis` of one collection: iterate the prefix, decode every value -/
def exportC {α : Type} (c : Coll α) (s : Store) : List α := (under c.pfx s).filterMap (fun e => c.dec e.2)

/-- `InitGenesis` of one collection: `Set` every record under the key computed from it -/
def initC {α : Type} (c : Coll α) (items : List α) (s0 : Store) : Store :=
  items.foldl (fun s a => s.set (c.key a) (c.enc a)) s0

/-- every record under the prefix decodes, and is stored under the key computed from its own
    fields with its own encoding (what the keepers' `Set…` functions establish) -/
def WF {α : Type} (c : Coll α) (s : Store) : Prop :=
  ∀ e ∈ under c.pfx s, ∃ a, c.dec e.2 = some a ∧ c.entry a = e

/-- a document's items: decodable, keyed under the collection's prefix -/
def ItemsOK {α : Type} (c : Coll α) (g : List α) : Prop :=
  ∀ a ∈ g, c.dec (c.enc a) = some a ∧ isPrefix c.pfx (c.key a) = true

/-- items in strictly increasing key order (what an export produces) -/
def KeySorted {α : Type} (c : Coll α) (g : List α) : Prop := g.Pairwise (fun a b => klt (c.key a) (c.key b) = true)

/-! ### key functions of the Sifchain modules (bytes as numbers; `_` = 95) -/

def us : Nat := 95

/-- `fmt.Sprintf("%s_%s", a, b)` -/
def joinU (a b : List Nat) : List Nat := a ++ us :: b

/-- clp `GetPoolKey(symbol, "rowan")` = 0x00 ‖ symbol_rowan -/
def poolKey (rowan sym : List Nat) : Key := 0 :: joinU sym rowan
/-- clp `GetLiquidityProviderKey(symbol, address)` = 0x01 ‖ symbol_address -/
def lpKey (x : List Nat × List Nat) : Key := 1 :: joinU x.1 x.2
/-- admin `GetAdminAccountKey` = 0x01 ‖ type_address -/
def adminKey (x : List Nat × List Nat) : Key := 1 :: joinU x.1 x.2
/-- dispensation `GetUserClaimKey` = 0x02 ‖ address_type -/
def claimKey (x : List Nat × List Nat) : Key := 2 :: joinU x.1 x.2
/-- dispensation `GetDistributionRecordKey` = statusPrefix ‖ name_type_recipient -/
def recordKey (statusPfx : Nat) (x : List Nat × List Nat × List Nat) : Key := statusPfx :: joinU (joinU x.1 x.2.1) x.2.2
/-- dispensation `GetDistributionsKey` = 0x01 ‖ name_type_runner -/
def distributionKey (x : List Nat × List Nat × List Nat) : Key := 1 :: joinU (joinU x.1 x.2.1) x.2.2
/-- margin `GetMTPKey` = 0x01 ‖ address ‖ 8-byte big-endian id -/
def mtpKey (x : List Nat × List Nat) : Key := 1 :: (x.1 ++ x.2)
/-- oracle prophecy key = "\x02_" ‖ id -/
def prophecyKey (id : List Nat) : Key := 2 :: us :: id
/-- clp rewards bucket key = "RewardsBucket/value/" ‖ denom ‖ "/" -/
def bucketKey (pfx : List Nat) (denom : List Nat) : Key := pfx ++ denom ++ [47]

/-! ### epochs: the one stated exception -/

structure Epoch where
  id : List Nat
  /-- every other field of EpochInfo -/
  rest : List Nat
  startHeight : Nat
  deriving DecidableEq, Repr

/-- `epochs.InitGenesis`: `epoch.CurrentEpochStartHeight = ctx.BlockHeight()` before `SetEpochInfo` -/
def Epoch.rebase (h : Nat) (e : Epoch) : Epoch := { e with startHeight := h }

end Sif.Gen
