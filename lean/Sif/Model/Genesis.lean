/-
  C14 — genesis export/import.  Core Lean only.
  Part 1: record type of the regenerated field-coverage facts (tie 1, `Sif/Generated/Genesis.lean`).
-/
namespace Sif.Gen

/-- one field of a module's `GenesisState`, with how `InitGenesis` consumes it and how
    `ExportGenesis` produces it (callee names; see extract/replay/genesis.go) -/
structure GenField where
  module : String
  field : String
  ty : String
  /-- number of references to the field inside functions named `InitGenesis` -/
  initRefs : Nat
  /-- calls (other than builtins) that receive a value derived from the field in `InitGenesis` -/
  initCalls : List String
  /-- number of times the field is given a value in a `GenesisState{…}` literal of `ExportGenesis` -/
  exportRefs : Nat
  /-- calls the exported value is derived from -/
  exportFrom : List String
  deriving DecidableEq, Repr

end Sif.Gen
