/-
  Types of the facts the extractor pass `ante` regenerates into `Sif/Generated/AnteConsts.lean`
  (C19).  Core only.
-/
namespace Sif.AnteTypes

/-- the amount a branch of the min-fee loop assigns -/
inductive Amount where
  | const (n : Nat)     -- `sdk.NewInt(n)`
  | proposalFee         -- `sdk.NewIntFromBigInt(submitProposalFee.BigInt())` (admin parameter)
  | unknown
  deriving Repr, DecidableEq, Inhabited

/-- how a branch combines the amount with the running minimum fee -/
inductive Update where
  | overwrite           -- `minFee = amount`
  | max                 -- `minFee = sdk.MaxInt(minFee, amount)`
  | unknown
  deriving Repr, DecidableEq, Inhabited

/-- one `if`/`else if` branch: the URL matches if it contains one of `subs` (and, if `guardLE = some n`,
    the running minimum fee is `≤ n`) -/
structure Branch where
  subs : List String
  guardLE : Option Nat
  amount : Amount
  update : Update
  deriving Repr, DecidableEq, Inhabited

end Sif.AnteTypes
