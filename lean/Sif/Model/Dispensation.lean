import Sif.Model.Mint
/-
  C11 — model of x/dispensation: keeper/msg_server.go, keeper/executors.go,
  keeper/distributionRecords.go, keeper/distribution.go, keeper/userclaim.go, types/keys.go,
  types/msgs.go (ValidateBasic), utils/parser.go (TotalOutput).  Core Lean only.

  The module store is modelled as one key-sorted association list per prefix
  (0x00 pending, 0x11 completed, 0x12 failed, 0x01 distributions, 0x02 claims; 0x03 is the mint
  controller of Sif/Model/Mint.lean); iteration order = list order = byte order of the keys
  (`sSet` inserts in `ltKey` order).  That the six prefixes cannot shadow each other is the
  generated-fact obligation `prefixes_disjoint` of Sif/Props/C11.lean.
-/
namespace Sif.Disp

/-! ### sorted stores -/

abbrev Key := List Char
abbrev Store (α : Type) := List (Key × α)

def sGet {α} : Store α → Key → Option α
  | [], _ => none
  | (k', v) :: r, k => if k' = k then some v else sGet r k

def sHas {α} (st : Store α) (k : Key) : Bool := (sGet st k).isSome

def sSet {α} : Store α → Key → α → Store α
  | [], k, v => [(k, v)]
  | (k', v') :: r, k, v =>
      if k = k' then (k, v) :: r
      else if ltKey k k' then (k, v) :: (k', v') :: r
      else (k', v') :: sSet r k v

def sDel {α} : Store α → Key → Store α
  | [], _ => []
  | (k', v) :: r, k => if k' = k then r else (k', v) :: sDel r k

/-! ### types -/

/-- `DistributionType` (int32 enum 0..3; anything else behaves like UNSPECIFIED: ValidateBasic rejects it) -/
inductive DType where
  | unspecified | airdrop | validatorSubsidy | liquidityMining
  deriving Repr, DecidableEq, Inhabited

def DType.digit : DType → Char
  | .unspecified => '0' | .airdrop => '1' | .validatorSubsidy => '2' | .liquidityMining => '3'

/-- `IsValidDistributionType` -/
def DType.valid (t : DType) : Bool := t != .unspecified
/-- `IsValidClaimType` / `DoesTypeSupportClaim` -/
def DType.claimable (t : DType) : Bool := t == .liquidityMining || t == .validatorSubsidy

structure Rec where
  name : List Char
  typ : DType
  rcpt : Addr
  coins : Coins
  runner : Addr
  start : Int        -- DistributionStartHeight
  done : Int         -- DistributionCompletedHeight (-1 while pending)
  deriving Repr, DecidableEq, Inhabited

/-- `fmt.Sprintf("%s_%d_%s", name, type, x)` -/
def tripleKey (name : List Char) (t : DType) (x : List Char) : Key := name ++ '_' :: t.digit :: '_' :: x

/-- `GetDistributionRecordKey` without the status prefix (the prefix selects the sub-store) -/
def recordKey (name : List Char) (t : DType) (rcpt : Addr) : Key := tripleKey name t rcpt
/-- `GetDistributionsKey` -/
def distKey (name : List Char) (t : DType) (runner : Addr) : Key := tripleKey name t runner
/-- `GetUserClaimKey`: `fmt.Sprintf("%s_%d", user, type)` -/
def claimKey (user : Addr) (t : DType) : Key := user ++ ['_', t.digit]

def Rec.key (r : Rec) : Key := recordKey r.name r.typ r.rcpt

/-- `DistributionRecord.Validate` -/
def Rec.valid (r : Rec) : Bool := !r.rcpt.isEmpty && coinsValid r.coins && !r.coins.isEmpty

structure DispCfg where
  module : Addr                 -- address of the module account "dispensation"
  blocked : Addr → Bool         -- x/bank's blocked addresses (module accounts + node blacklist)
  validAddr : Addr → Bool       -- `sdk.AccAddressFromBech32` succeeds
  canon : Addr → Addr           -- the account a spelling decodes to (bech32 is case-insensitive:
                                -- an all-upper-case spelling is valid and names the same account);
                                -- record, distribution and claim KEYS use the spelling as written

structure DispState where
  pending : Store Rec
  completed : Store Rec
  failed : Store Rec
  dists : Store Unit
  claims : Store Unit
  bank : Bank
  deriving Repr, DecidableEq, Inhabited

def DispState.empty : DispState := ⟨[], [], [], [], [], Bank.empty⟩

structure Output where
  addr : Addr
  coins : Coins
  deriving Repr, DecidableEq, Inhabited

structure MsgCreate where
  distributor : Addr
  runner : Addr
  typ : DType
  outputs : List Output
  deriving Repr, DecidableEq, Inhabited

structure MsgRun where
  runner : Addr
  name : List Char
  typ : DType
  count : Int
  deriving Repr, DecidableEq, Inhabited

structure MsgClaim where
  user : Addr
  typ : DType
  deriving Repr, DecidableEq, Inhabited

/-! ### ValidateBasic -/

def outputsValid (cfg : DispCfg) : List Output → Bool
  | [] => true
  | o :: r => cfg.validAddr o.addr && coinsValid o.coins && outputsValid cfg r

def MsgCreate.validateBasic (cfg : DispCfg) (m : MsgCreate) : Bool :=
  m.typ.valid && !m.outputs.isEmpty && cfg.validAddr m.distributor && cfg.validAddr m.runner &&
  outputsValid cfg m.outputs

/-- `types.MaxRecordsPerBlock` is passed in (generated constant) -/
def MsgRun.validateBasic (cfg : DispCfg) (maxRecords : Nat) (m : MsgRun) : Bool :=
  m.typ.valid && !m.name.isEmpty && cfg.validAddr m.runner &&
  decide (m.count ≤ (maxRecords : Int)) && decide (0 < m.count)

def MsgClaim.validateBasic (cfg : DispCfg) (m : MsgClaim) : Bool :=
  cfg.validAddr m.user && m.typ.claimable

/-! ### CreateDistribution -/

/-- `TotalOutput`: `output[0].Coins` then `Add` of the others -/
def totalOutput : List Output → Coins
  | [] => []
  | o :: r => r.foldl (fun acc o' => coinsAdd acc o'.coins) o.coins

/-- one iteration of the loop of `CreateDrops`; `none` = the handler returns an error -/
def createDrop (name : List Char) (t : DType) (runner : Addr) (height : Int)
    (pending : Store Rec) (o : Output) : Option (Store Rec) :=
  let k := recordKey name t o.addr
  let r0 : Rec := { name := name, typ := t, rcpt := o.addr, coins := o.coins, runner := runner, start := height, done := -1 }
  let r := match sGet pending k with
    | some old => { r0 with coins := coinsAdd r0.coins old.coins }
    | none => r0
  if r.valid then some (sSet pending k r) else none

def createDrops (name : List Char) (t : DType) (runner : Addr) (height : Int) :
    Store Rec → List Output → Option (Store Rec)
  | p, [] => some p
  | p, o :: r => match createDrop name t runner height p o with
      | none => none
      | some p' => createDrops name t runner height p' r

/-- `"%d_%s"` of block height and distributor (height ≥ 0 in every block) -/
def distName (height : Int) (distributor : Addr) : List Char :=
  (toString height).toList ++ '_' :: distributor

/-- the handler body; `none` = error returned (the transaction wrapper discards all writes) -/
def createDistribution (cfg : DispCfg) (height : Int) (s : DispState) (m : MsgCreate) : Option DispState :=
  let name := distName height m.distributor
  -- VerifyAndSetDistribution
  if sHas s.dists (distKey name m.typ m.runner) then none else
  if name.isEmpty then none else
  let dists' := sSet s.dists (distKey name m.typ m.runner) ()
  -- TotalOutput (an empty list is an error) and AccumulateDrops
  if m.outputs.isEmpty then none else
  match sendCoins s.bank m.distributor cfg.module (totalOutput m.outputs) with
  | none => none
  | some bank' =>
    -- CreateDrops
    match createDrops name m.typ m.runner height s.pending m.outputs with
    | none => none
    | some pending' => some { s with dists := dists', bank := bank', pending := pending' }

/-! ### RunDistribution -/

def Rec.matches (r : Rec) (name : List Char) (runner : Addr) (t : DType) : Bool :=
  r.name == name && r.runner == runner && r.typ == t

/-- `GetLimitedRecordsForRunner`: walk the pending prefix in key order, stop when
    `count == distributionCount`; `n` is the remaining `distributionCount - count` -/
def selectRecs (name : List Char) (runner : Addr) (t : DType) : Int → Store Rec → List (Key × Rec)
  | _, [] => []
  | n, (k, r) :: rest =>
      if n = 0 then []
      else if r.matches name runner t then (k, r) :: selectRecs name runner t (n - 1) rest
      else selectRecs name runner t n rest

/-- `ChangeRecordStatus`: set under the new prefix, then delete under the pending prefix (both keys
    are recomputed from the record's own fields).  Returns the state reached and whether it
    succeeded; on failure the writes made so far stay (the caller decides what happens next):
    `Validate` fails ⇒ nothing written; pending key missing ⇒ the new record is already set. -/
def moveRec (s : DispState) (toFailed : Bool) (r : Rec) (height : Int) : DispState × Bool :=
  let r' := { r with done := height }
  if !r'.valid then (s, false) else
  let s1 := if toFailed then { s with failed := sSet s.failed r'.key r' } else { s with completed := sSet s.completed r'.key r' }
  if !sHas s1.pending r'.key then (s1, false) else
  ({ s1 with pending := sDel s1.pending r'.key }, true)

inductive Outcome where
  | paid | failed | skipped
  deriving Repr, DecidableEq, Inhabited

/-- after a successful send: mark completed; on failure take the funds back (panic if impossible);
    on success delete the claim of claim-type records -/
def payOneSent (cfg : DispCfg) (height : Int) (s : DispState) (r : Rec) : M (DispState × Outcome) :=
  match moveRec s false r height with
  | (s1, false) =>
    match sendCoins s1.bank (cfg.canon r.rcpt) cfg.module r.coins with
    | none => .error .other               -- panic("Unable to set Distribution Records to completed")
    | some bank'' => .ok ({ s1 with bank := bank'' }, .skipped)
  | (s1, true) =>
    .ok (if r.typ.claimable then { s1 with claims := sDel s1.claims (claimKey (cfg.canon r.rcpt) r.typ) } else s1, .paid)

/-- one iteration of the loop of `DistributeDrops` on a record collected beforehand -/
def payOne (cfg : DispCfg) (height : Int) (s : DispState) (r : Rec) : M (DispState × Outcome) :=
  if !cfg.validAddr r.rcpt then .ok (s, .skipped) else
  match sendModuleToAccount cfg.blocked s.bank cfg.module (cfg.canon r.rcpt) r.coins with
  | none =>
    match moveRec s true r height with
    | (_, false) => .error .other         -- panic("Unable to set Distribution Records to Failed")
    | (s1, true) => .ok (s1, .failed)
  | some bank' => payOneSent cfg height { s with bank := bank' } r

def payAll (cfg : DispCfg) (height : Int) : DispState → List (Key × Rec) → M (DispState × List (Key × Rec × Outcome))
  | s, [] => .ok (s, [])
  | s, (k, r) :: rest =>
      match payOne cfg height s r with
      | .error e => .error e
      | .ok (s1, o) =>
        match payAll cfg height s1 rest with
        | .error e => .error e
        | .ok (s2, os) => .ok (s2, (k, r, o) :: os)

/-- `DistributeDrops` (the handler never returns an error; a panic is `.error`) -/
def runDistribution (cfg : DispCfg) (height : Int) (s : DispState) (m : MsgRun) : M (DispState × List (Key × Rec × Outcome)) :=
  payAll cfg height s (selectRecs m.name m.runner m.typ m.count s.pending)

/-! ### CreateUserClaim -/

/-- `GetUserClaimKey` keys a claim by the decoded account (fix F28), not by the spelling -/
def createClaim (cfg : DispCfg) (s : DispState) (m : MsgClaim) : Option DispState :=
  if sHas s.claims (claimKey (cfg.canon m.user) m.typ) then none
  else if m.user.isEmpty then none
  else some { s with claims := sSet s.claims (claimKey (cfg.canon m.user) m.typ) () }

/-! ### transactions, blocks, histories -/

inductive Msg where
  | create (m : MsgCreate) | run (m : MsgRun) | claim (m : MsgClaim)
  deriving Repr, DecidableEq, Inhabited

inductive TxResult where
  | ok | err | panic
  deriving Repr, DecidableEq, Inhabited

def TxResult.toString : TxResult → String
  | .ok => "ok" | .err => "err" | .panic => "panic"

/-- DeliverTx: ValidateBasic, then the handler on a copy; error or (recovered) panic ⇒ the copy is
    discarded.  Also returns what this transaction paid/failed (ghost, for the ledger theorems). -/
def deliver (cfg : DispCfg) (maxRecords : Nat) (height : Int) (s : DispState) : Msg → DispState × TxResult × List (Key × Rec × Outcome)
  | .create m =>
      if !m.validateBasic cfg then (s, .err, []) else
      match createDistribution cfg height s m with
      | none => (s, .err, [])
      | some s' => (s', .ok, [])
  | .run m =>
      if !m.validateBasic cfg maxRecords then (s, .err, []) else
      match runDistribution cfg height s m with
      | .error _ => (s, .panic, [])
      | .ok (s', os) => (s', .ok, os)
  | .claim m =>
      if !m.validateBasic cfg then (s, .err, []) else
      match createClaim cfg s m with
      | none => (s, .err, [])
      | some s' => (s', .ok, [])

/-! ### the chain: blocks, other traffic -/

structure Chain where
  height : Int
  st : DispState
  counter : Option Nat          -- mint controller (key 0x03)
  deriving Repr, DecidableEq, Inhabited

structure ChainCfg where
  disp : DispCfg
  mint : MintCfg
  maxRecords : Nat

inductive Op where
  | tx (m : Msg)
  | beginBlock                                  -- next height, then the dispensation BeginBlocker
  | fund (a : Addr) (c : Coins)                 -- coins created for an account elsewhere (genesis, bridge, …)
  | transfer (frm to : Addr) (c : Coins)        -- a bank transfer between accounts (frm ≠ module account)
  deriving Repr, DecidableEq, Inhabited

/-- ghost: what a step paid / failed -/
abbrev Trace := List (Key × Rec × Outcome)

def step (cfg : ChainCfg) (c : Chain) : Op → Chain × TxResult × Trace
  | .tx m =>
      let (s', res, os) := deliver cfg.disp cfg.maxRecords c.height c.st m
      ({ c with st := s' }, res, os)
  | .beginBlock =>
      match beginBlocker cfg.mint cfg.disp.blocked { counter := c.counter, bank := c.st.bank } with
      | .ok ms => ({ height := c.height + 1, st := { c.st with bank := ms.bank }, counter := ms.counter }, .ok, [])
      | .error _ => (c, .panic, [])
  | .fund a coins =>
      ({ c with st := { c.st with bank := mintCoins c.st.bank a coins } }, .ok, [])
  | .transfer frm to coins =>
      match sendCoins c.st.bank frm to coins with
      | some b => ({ c with st := { c.st with bank := b } }, .ok, [])
      | none => (c, .err, [])

def runOps (cfg : ChainCfg) : Chain → List Op → Chain
  | c, [] => c
  | c, op :: ops => runOps cfg (step cfg c op).1 ops

end Sif.Disp
