import Sif.Model.AuthTypes
import Sif.Generated.Auth
/-
  C08 — model of the three role stores and of a message handler as "statements, then a guard, then
  a body".  Core only.

  * the x/admin role table (`SetAdminAccount`, `RemoveAdminAccount`, `IsAdminAccount` of
    x/admin/keeper/keeper.go): the store is keyed by "<TYPE>_<address>", so it is a set of
    (role, address) pairs; `IsAdminAccount` scans it for an entry of that role whose address string
    equals the signer's bech32 string;
  * the oracle admin account (one address under oracle key 0x01) and the clp decommission whitelist
    (a list under clp key 0x02, absent = nobody);
  * an abstract handler over an arbitrary state type: the kinds of the statements before the guard
    are what the extractor records per handler (`Handler.pre`).
-/
namespace Sif.Auth
open Sif.AuthTypes

abbrev Role := String
abbrev Addr := String

/-! ### role stores -/

abbrev AdminTable := List (Role × Addr)

/-- `SetAdminAccount`: `store.Set(key(type, address), account)` -/
def AdminTable.add (t : AdminTable) (k : Role × Addr) : AdminTable := if k ∈ t then t else t ++ [k]
/-- `RemoveAdminAccount`: `store.Delete(key(type, address))` -/
def AdminTable.remove (t : AdminTable) (k : Role × Addr) : AdminTable := t.filter (fun e => e ≠ k)
/-- `IsAdminAccount(ctx, role, signer)` -/
def AdminTable.isAdmin (t : AdminTable) (r : Role) (a : Addr) : Bool := t.any (fun e => e.1 == r && e.2 == a)

structure AuthState where
  admin : AdminTable
  oracleAdmin : Option Addr            -- none: nothing stored (GetAdminAccount returns nil)
  clpWhitelist : Option (List Addr)    -- none: key absent (ExistsClpWhiteList false)
  deriving Repr, Inhabited

def AuthState.empty : AuthState := ⟨[], none, none⟩

/-- does `signer` pass the guard of a handler that consults `store` with `role` -/
def holds (st : AuthState) (store : Store) (role : Role) (signer : Addr) : Bool :=
  match store with
  | .none => true
  | .admin => st.admin.isAdmin role signer
  | .oracle => st.oracleAdmin == some signer
  | .clpWhitelist => match st.clpWhitelist with
    | none => false
    | some l => l.contains signer
  | .unknown => false

/-! ### fact records -/

def StmtKind.harmless : StmtKind → Bool
  | .pure => true
  | .read => true
  | _ => false

/-- the guard is on every path and nothing before it can write -/
def guardFirst (h : Handler) : Bool := h.guardTop && h.pre.all StmtKind.harmless

def findHandler (module name : String) : Option Handler :=
  Sif.Generated.Auth.handlers.find? (fun h => h.module == module && h.name == name)

/-! ### an abstract handler: statements, guard, body — over any state type -/

inductive Stmt (σ : Type) where
  | pure (ok : Bool)            -- touches no state; `ok = false`: returns an error here
  | read (ok : σ → Bool)        -- reads state; returns an error if `ok s = false`
  | write (f : σ → σ)           -- writes state
  | unknown (f : σ → σ)         -- anything

def Stmt.kind {σ} : Stmt σ → StmtKind
  | .pure _ => .pure
  | .read _ => .read
  | .write _ => .write
  | .unknown _ => .unknown

inductive Outcome where
  | ok | err
  deriving Repr, DecidableEq

structure AbsHandler (σ : Type) where
  pre : List (Stmt σ)            -- top-level statements before the guard
  guard : σ → Bool               -- the authorisation test, evaluated on the state at that point
  failErr : Bool                 -- the failing branch returns a non-nil error (else: returns nil)
  body : σ → σ × Outcome         -- everything after the guard (may write, may fail half-way)

/-- run the statements before the guard: (state, reached the guard?) — no rollback -/
def execPre {σ} : List (Stmt σ) → σ → σ × Bool
  | [], s => (s, true)
  | .pure ok :: r, s => if ok then execPre r s else (s, false)
  | .read ok :: r, s => if ok s then execPre r s else (s, false)
  | .write f :: r, s => execPre r (f s)
  | .unknown f :: r, s => execPre r (f s)

/-- the handler called directly (keeper level: no transaction wrapper, nothing is rolled back) -/
def AbsHandler.run {σ} (h : AbsHandler σ) (s : σ) : σ × Outcome :=
  match execPre h.pre s with
  | (s1, false) => (s1, .err)
  | (s1, true) => if h.guard s1 then h.body s1 else (s1, if h.failErr then .err else .ok)

/-- the handler inside DeliverTx: baseapp keeps the message's writes only if it returned nil -/
def AbsHandler.deliver {σ} (h : AbsHandler σ) (s : σ) : σ × Outcome :=
  match h.run s with
  | (s', .ok) => (s', .ok)
  | (_, .err) => (s, .err)

/-- an abstract handler has the shape the extractor recorded -/
def Conforms {σ} (a : AbsHandler σ) (h : Handler) : Prop :=
  a.pre.map Stmt.kind = h.pre ∧ a.failErr = h.failReturnsError

/-! ### the matrix step: what the model expects of one message of the evolving role table -/

/-- payload of admin.AddAccount / admin.RemoveAccount: the role, the address string as the message
    spells it, and (environment value, computed by cosmos-sdk's bech32 code) the canonical string of
    the account that spelling denotes — `none` if it is not a valid address -/
structure Payload where
  role : Role
  addr : Addr
  canon : Option Addr
  deriving Repr, DecidableEq

/-- `validateAdminAccount`: only the canonical spelling of a valid address is accepted -/
def Payload.canonical (p : Payload) : Bool := p.canon == some p.addr

/-- does the handler validate the spelling (regenerated fact `adminValidatesCanonical`) -/
def validatesSpelling (name : String) : Bool :=
  (Sif.Generated.Auth.adminValidatesCanonical.find? (fun e => e.1 == name)).map (·.2) == some true

def isTableMsg (module name : String) : Bool := module == "admin" && (name == "AddAccount" || name == "RemoveAccount")

/-- effect of an authorised, valid admin.AddAccount / admin.RemoveAccount on the role table; every other
    handler leaves the three role stores alone -/
def applyAdminMsg (st : AuthState) (module name : String) (payload : Option Payload) : AuthState :=
  match payload with
  | none => st
  | some p =>
    if module == "admin" && name == "AddAccount" then { st with admin := st.admin.add (p.role, p.addr) }
    else if module == "admin" && name == "RemoveAccount" then { st with admin := st.admin.remove (p.role, p.addr) }
    else st

/-- the payload check behind the guard (`validates`: whether the code has it) -/
def payloadOK (validates : Bool) (module name : String) (payload : Option Payload) : Bool :=
  match payload with
  | none => true
  | some p => !(validates && isTableMsg module name) || p.canonical

/-- one message: accepted iff its guard holds for the signer and, for the two table messages, the
    account is named in its canonical spelling (the payloads of the matrix are otherwise valid) -/
def stepMsgV (validates : Bool) (st : AuthState) (h : Handler) (signer : Addr) (payload : Option Payload) : AuthState × Outcome :=
  if holds st h.store h.role signer && payloadOK validates h.module h.name payload then
    (applyAdminMsg st h.module h.name payload, .ok)
  else (st, .err)

/-- with what the regenerated facts say about the code -/
def stepMsg (st : AuthState) (h : Handler) (signer : Addr) (payload : Option Payload) : AuthState × Outcome :=
  stepMsgV (validatesSpelling h.name) st h signer payload

/-- one message of a transaction: handler (by module and name), signer, payload -/
structure TxMsg where
  module : String
  name : String
  signer : Addr
  payload : Option Payload
  deriving Repr

/-- a whole transaction, as baseapp runs it: the messages in order on a branch of the state; the first
    refusal stops it and the branch is dropped — a failed transaction changes nothing.  `spec` maps a
    message to the handler record the judge uses. -/
def stepTxFrom (spec : String → String → Handler) (st0 : AuthState) : AuthState → List TxMsg → AuthState × Outcome
  | st, [] => (st, .ok)
  | st, m :: ms =>
    match stepMsg st (spec m.module m.name) m.signer m.payload with
    | (st', .ok) => stepTxFrom spec st0 st' ms
    | (_, .err) => (st0, .err)

def stepTx (spec : String → String → Handler) (st : AuthState) (ms : List TxMsg) : AuthState × Outcome :=
  stepTxFrom spec st st ms

/-- a simulation (gas estimation, `Simulate`): the same run, and the branch is dropped whatever happens -/
def stepSim (spec : String → String → Handler) (st : AuthState) (ms : List TxMsg) : AuthState × Outcome :=
  (st, (stepTx spec st ms).2)

end Sif.Auth
