import Sif.Num.Basic
/-
  x/clp/abci.go `BeginBlocker` — liquidity-protection threshold replenishment and the
  ratio-shifting (PMTP) policy: `PolicyStart`, `PolicyCalculations`, `PolicyRun`
  (x/clp/keeper/pmtp.go), copied operation by operation.  Every `sdk.Uint` / `sdk.Dec` /
  `big.Rat` / int64 operation that can panic in Go is an `Except.error` here.  A `.error`
  result of `beginBlock` is a chain halt.

  Not in the model (environment values, see `BEnv`): the float pipeline of `PolicyStart`
  (`MustFloat64`, `math.Pow`, `%.18f`, `NewDecFromStr`) — its outcome enters as `powRate`.
-/
namespace Sif.Hooks
open Sif

/-! ### fixed-width integers of the Go code -/
def two63 : Int := 2 ^ 63
def two64 : Int := 2 ^ 64
/-- two's-complement wrap of a mathematical integer into int64 -/
def wrapI64 (i : Int) : Int := (i + two63) % two64 - two63
/-- wrap into uint64 -/
def wrapU64 (i : Int) : Nat := (i % two64).toNat
def inI64 (i : Int) : Bool := decide (-two63 ≤ i) && decide (i < two63)
def inU64 (n : Nat) : Bool := decide ((n : Int) < two64)

/-- Go's `a / b` on int64: run-time panic on zero; `MinInt64 / -1` wraps (no panic) -/
def divI64 (a b : Int) : M Int := if b = 0 then .error .divZero else .ok (wrapI64 (Int.tdiv a b))

/-! ### state read and written by the clp BeginBlocker -/

/-- liquidity-protection params + rate params -/
structure LiqProt where
  active : Bool
  max : Nat        -- MaxRowanLiquidityThreshold (sdk.Uint)
  cur : Nat        -- CurrentRowanLiquidityThreshold (sdk.Uint)
  epochLen : Nat   -- EpochLength (uint64)
  deriving Repr, DecidableEq, Inhabited

/-- PmtpParams + PmtpEpoch + PmtpRateParams -/
structure Pmtp where
  start : Int      -- PmtpPeriodStartBlock (int64)
  end_ : Int       -- PmtpPeriodEndBlock (int64)
  epochLen : Int   -- PmtpPeriodEpochLength (int64)
  gov : Dec        -- PmtpPeriodGovernanceRate
  epochCtr : Int   -- PmtpEpoch.EpochCounter (int64)
  blockCtr : Int   -- PmtpEpoch.BlockCounter (int64)
  blockRate : Dec  -- PmtpPeriodBlockRate
  running : Dec    -- PmtpCurrentRunningRate
  inter : Dec      -- PmtpInterPolicyRate
  deriving Repr, DecidableEq, Inhabited

/-- what `PolicyRun` reads of one pool -/
structure PoolDepth where
  nb : Nat   -- NativeAssetBalance
  eb : Nat   -- ExternalAssetBalance
  nl : Nat   -- NativeLiabilities
  el : Nat   -- ExternalLiabilities
  decOK : Bool   -- `GetAssetDecimals` found the entry and the decimals fit uint8
  dec : Nat      -- the external asset's decimals (0 … 255)
  deriving Repr, DecidableEq, Inhabited

structure BState where
  lp : LiqProt
  pm : Pmtp
  deriving Repr, DecidableEq, Inhabited

/-- per-block inputs that the model does not compute -/
structure BEnv where
  h : Int                  -- ctx.BlockHeight()
  powRate : Option Dec     -- PolicyStart's `NewDecFromStr(Sprintf("%.18f", Pow(1+gov, e/n) - 1))`; none = error (NaN, ±Inf, > 315 bits)
  pools : List PoolDepth   -- in store order
  deriving Repr, Inhabited

/-! ### liquidity protection -/

def lpPick (lp : LiqProt) (repl room : Nat) : M LiqProt :=
  if room < repl then .ok { lp with cur := lp.max }
  else (Uint.add lp.cur repl).map (fun c => { lp with cur := c })

/-- abci.go:69–93 -/
def lpUpdate (lp : LiqProt) : M LiqProt :=
  if lp.active then do
    let repl ← Uint.quo lp.max lp.epochLen        -- QuoUint64(EpochLength)
    let room ← Uint.sub lp.max lp.cur             -- max.Sub(current)
    lpPick lp repl room
  else .ok lp

/-- liquidityprotection.go `MustUpdateLiquidityProtectionThreshold`, the only place where a
    permissionless message (a swap that buys or sells the native asset) writes state the BeginBlocker
    reads; `value` = `CalcRowanValue(amount, price)`.  A panic here is inside a transaction. -/
def lpBuy (lp : LiqProt) (value room : Nat) : M LiqProt :=
  if room < value then .ok { lp with cur := lp.max }
  else (Uint.add lp.cur value).map (fun c => { lp with cur := c })

def lpUserUpdate (lp : LiqProt) (sellNative : Bool) (value : Nat) : M LiqProt :=
  if lp.active then
    if sellNative then
      if lp.cur < value then .error .other        -- explicit panic(errors.New(…))
      else (Uint.sub lp.cur value).map (fun c => { lp with cur := c })
    else (Uint.sub lp.max lp.cur).bind (lpBuy lp value)
  else .ok lp

/-! ### PMTP -/

/-- pmtp.go `PolicyStart` -/
def policyStart (pm : Pmtp) (powRate : Option Dec) : M Pmtp := do
  let numBlocks := wrapI64 (wrapI64 (pm.end_ - pm.start) + 1)
  let numEpochs ← divI64 numBlocks pm.epochLen
  let _base ← Dec.add Dec.one pm.gov              -- sdk.NewDec(1).Add(gov)
  match powRate with
  | none => .error .other                         -- panic(err) after NewDecFromStr
  | some r => .ok { pm with blockRate := r, epochCtr := numEpochs, blockCtr := pm.epochLen }

/-- pmtp.go `PolicyCalculations` → the new running rate -/
def policyCalc (pm : Pmtp) (h : Int) : M Dec := do
  let d ← Dec.add Dec.one pm.blockRate
  let n := wrapU64 (wrapI64 (wrapI64 (h - pm.start) + 1))
  let p ← Dec.power d n
  let r ← Dec.sub p Dec.one
  Dec.add r pm.inter

def startIfDue (pm : Pmtp) (env : BEnv) : M Pmtp :=
  if env.h = pm.start ∧ pm.epochCtr = 0 ∧ pm.blockCtr = 0 then policyStart pm env.powRate else .ok pm

/-- "Manage Block Counter": inside the window with epochs left, recompute the running rate -/
def calcIfInside (pm : Pmtp) (h : Int) : M Pmtp :=
  if h ≥ pm.start ∧ h ≤ pm.end_ ∧ pm.epochCtr > 0 then
    (policyCalc pm h).map (fun r => { pm with running := r, blockCtr := wrapI64 (pm.blockCtr - 1) })
  else .ok pm

/-- "Manage Epoch Counter" -/
def epochRoll (pm : Pmtp) (h : Int) : Pmtp :=
  if pm.blockCtr = 0 ∧ h < pm.end_ ∧ h ≥ pm.start then
    { pm with epochCtr := wrapI64 (pm.epochCtr - 1), blockCtr := pm.epochLen }
  else pm

/-- policy end: counters to zero, inter-policy rate := the running rate computed this block -/
def endIfDue (pm : Pmtp) (h : Int) (running : Dec) : Pmtp :=
  if h = pm.end_ then { pm with epochCtr := 0, blockCtr := 0, inter := running } else pm

/-! ### PolicyRun: spot prices -/

def pow10 (n : Nat) : Nat := 10 ^ n

/-- `CalcDenomChangeMultiplier` -/
def denomMult (dx dy : Nat) : Rat :=
  if dx > dy then (pow10 (dx - dy) : Nat) else mkRat 1 (pow10 (dy - dx))

/-- `RatToDec`: none = the error branch (> 315 bits) -/
def ratToDec (r : Rat) : Option Dec :=
  let d := Int.tdiv (r.num * Dec.P) r.den
  if bitLen d.natAbs > Dec.maxBits then none else some ⟨d⟩

/-- `CalcSpotPriceX`; `.ok none` = returned an error (caller stores zero); `.error` = Go panic -/
def spotPriceX (X Y dx dy : Nat) (r : Dec) (isXNative : Bool) : M (Option Dec) :=
  if X = 0 then .ok none else
    let price : Rat := mkRat Y X
    let fac : Rat := 1 + decToRat r
    let adj : M Rat := if isXNative then .ok (price * fac) else ratDiv price fac
    adj.map (fun p => ratToDec (p * denomMult dx dy))

def orZero : Option Dec → Dec
  | some d => d
  | none => Dec.zero

/-- one iteration of the `PolicyRun` loop → the two stored prices (none = pool skipped) -/
def poolPrices (p : PoolDepth) (r : Dec) : M (Option (Dec × Dec)) :=
  if p.decOK then do
    let xn ← Uint.add p.nb p.nl               -- ExtractDebt
    let ye ← Uint.add p.eb p.el
    let pn ← spotPriceX xn ye 18 p.dec r true
    let pe ← spotPriceX ye xn p.dec 18 r false
    pure (some (orZero pn, orZero pe))
  else .ok none

def policyRun : List PoolDepth → Dec → M (List (Option (Dec × Dec)))
  | [], _ => .ok []
  | p :: ps, r => do
    let a ← poolPrices p r
    let rest ← policyRun ps r
    pure (a :: rest)

/-! ### the hook -/

structure BOut where
  st : BState
  prices : List (Option (Dec × Dec))
  deriving Repr, Inhabited

def pmtpStep (pm : Pmtp) (env : BEnv) : M (Pmtp × Dec) := do
  let pm1 ← startIfDue pm env
  let pm2 ← calcIfInside pm1 env.h
  let running := pm2.running
  let pm3 := epochRoll pm2 env.h
  pure (endIfDue pm3 env.h running, running)

/-- x/clp/abci.go `BeginBlocker` -/
def beginBlock (s : BState) (env : BEnv) : M BOut := do
  let lp ← lpUpdate s.lp
  let pr ← pmtpStep s.pm env
  let prices ← policyRun env.pools pr.2
  pure { st := { lp := lp, pm := pr.1 }, prices := prices }

end Sif.Hooks
