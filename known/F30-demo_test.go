package keeper_test

import (
	"strings"
	"testing"

	sifapp "github.com/Sifchain/sifnode/app"
	clpkeeper "github.com/Sifchain/sifnode/x/clp/keeper"
	"github.com/Sifchain/sifnode/x/clp/test"
	"github.com/Sifchain/sifnode/x/clp/types"
	sdk "github.com/cosmos/cosmos-sdk/types"
	"github.com/stretchr/testify/require"
)

// F30 (C02): an existing provider adds liquidity under the all-upper-case bech32 spelling of its
// own address.  The message is valid (ValidateBasic passes, GetSigners yields the same account).
// Pool units must still equal the sum of the provider units, and the provider must keep the units
// it already had.
func TestF30_AddLiquidityUnderAnotherSpellingOfTheSigner(t *testing.T) {
	ctx, app := test.CreateTestAppClp(false)
	k := app.ClpKeeper
	srv := clpkeeper.NewMsgServerImpl(k)
	alice := test.GenerateAddress(test.AddressKey1)
	asset := types.NewAsset("cusdc")
	big := func(s string) sdk.Int { i, _ := sdk.NewIntFromString(s); return i }
	funds := sdk.NewCoins(sdk.NewCoin(asset.Symbol, big("10000000000000000000000")), sdk.NewCoin(types.NativeSymbol, big("10000000000000000000000")))
	require.NoError(t, sifapp.AddCoinsToAccount(types.ModuleName, app.BankKeeper, ctx, alice, funds))
	deliver := func(msg sdk.Msg, run func(c sdk.Context) error) {
		require.NoError(t, msg.ValidateBasic())
		cacheCtx, write := ctx.CacheContext()
		require.NoError(t, run(cacheCtx))
		write()
	}
	create := types.NewMsgCreatePool(alice, asset, sdk.NewUintFromString("1000000000000000000000"), sdk.NewUintFromString("1000000000000000000000"))
	deliver(&create, func(c sdk.Context) error { _, err := srv.CreatePool(sdk.WrapSDKContext(c), &create); return err })
	before, err := k.GetLiquidityProvider(ctx, asset.Symbol, alice.String())
	require.NoError(t, err)

	add := types.NewMsgAddLiquidity(alice, asset, sdk.NewUintFromString("500000000000000000000"), sdk.NewUintFromString("500000000000000000000"))
	add.Signer = strings.ToUpper(alice.String())
	require.Equal(t, alice.String(), add.GetSigners()[0].String(), "the same account signs")
	deliver(&add, func(c sdk.Context) error { _, err := srv.AddLiquidity(sdk.WrapSDKContext(c), &add); return err })

	pool, err := k.GetPool(ctx, asset.Symbol)
	require.NoError(t, err)
	all, err := k.GetAllLiquidityProviders(ctx)
	require.NoError(t, err)
	sum := sdk.ZeroUint()
	for _, lp := range all {
		if lp.Asset.Symbol == asset.Symbol {
			sum = sum.Add(lp.LiquidityProviderUnits)
		}
	}
	require.Equal(t, pool.PoolUnits.String(), sum.String(), "pool units vs sum of provider units")
	after, err := k.GetLiquidityProvider(ctx, asset.Symbol, alice.String())
	require.NoError(t, err)
	require.True(t, after.LiquidityProviderUnits.GT(before.LiquidityProviderUnits), "the provider keeps its earlier units: before %s after %s", before.LiquidityProviderUnits, after.LiquidityProviderUnits)
}
