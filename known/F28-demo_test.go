package dispensation_test

import (
	"fmt"
	"strings"
	"testing"

	sifapp "github.com/Sifchain/sifnode/app"
	"github.com/Sifchain/sifnode/x/dispensation"
	"github.com/Sifchain/sifnode/x/dispensation/test"
	"github.com/Sifchain/sifnode/x/dispensation/types"
	banktypes "github.com/cosmos/cosmos-sdk/x/bank/types"
	sdk "github.com/cosmos/cosmos-sdk/types"
	"github.com/stretchr/testify/require"
	"github.com/tendermint/tendermint/crypto/ed25519"
)

// One account, two spellings of its address (both valid bech32, both pass ValidateBasic, both signed
// by the same key): the account must hold at most one claim per claim type, and paying a claim-type
// record to it must delete its claim. Every message runs on a cache context written only on success.
func TestF28ClaimPerAccountNotPerSpelling(t *testing.T) {
	app, ctx := test.CreateTestApp(false)
	keeper := app.DispensationKeeper
	handler := dispensation.NewHandler(keeper)
	deliver := func(msg sdk.Msg) error {
		if err := msg.ValidateBasic(); err != nil {
			return err
		}
		c, write := ctx.CacheContext()
		_, err := handler(c, msg)
		if err == nil {
			write()
		}
		return err
	}
	user := sdk.AccAddress(ed25519.GenPrivKey().PubKey().Address())
	lower, upper := user.String(), strings.ToUpper(user.String())
	typ := types.DistributionType_DISTRIBUTION_TYPE_VALIDATOR_SUBSIDY

	require.NoError(t, deliver(&types.MsgCreateUserClaim{UserClaimAddress: lower, UserClaimType: typ}))
	err := deliver(&types.MsgCreateUserClaim{UserClaimAddress: upper, UserClaimType: typ})
	n := 0
	for _, c := range keeper.GetClaimsByType(ctx, typ).UserClaims {
		a, e := sdk.AccAddressFromBech32(c.UserAddress)
		require.NoError(t, e)
		if a.Equals(user) {
			n++
		}
	}
	require.Equal(t, 1, n, "the account holds %d claims of one type (second create returned %v)", n, err)

	// a claim-type distribution paying the account, its address written in upper case by the distributor
	distributor := sdk.AccAddress(ed25519.GenPrivKey().PubKey().Address())
	runner := sdk.AccAddress(ed25519.GenPrivKey().PubKey().Address())
	coins := sdk.NewCoins(sdk.NewCoin("rowan", sdk.NewInt(10)))
	require.NoError(t, sifapp.AddCoinsToAccount(types.ModuleName, app.BankKeeper, ctx, distributor, coins))
	create := types.NewMsgCreateDistribution(distributor, typ, []banktypes.Output{{Address: upper, Coins: coins}}, runner.String())
	require.NoError(t, deliver(&create))
	name := fmt.Sprintf("%d_%s", ctx.BlockHeight(), distributor.String())
	run := types.NewMsgRunDistribution(runner.String(), name, typ, 10)
	require.NoError(t, deliver(&run))
	require.Equal(t, coins, app.BankKeeper.GetAllBalances(ctx, user), "the record was paid")
	for _, c := range keeper.GetClaimsByType(ctx, typ).UserClaims {
		a, _ := sdk.AccAddressFromBech32(c.UserAddress)
		require.False(t, a.Equals(user), "paying the claim-type record left the account's claim %s in place", c.UserAddress)
	}
}
